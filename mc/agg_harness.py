"""Harness for the aggregator's run bookkeeping (C28, C29, C30).

Real `Aggregator` + `AggregatorMessageHandlers` + `AggregatorDispatcher` + the real repositories on a fresh
in-memory SQLite database per history.  One engine ("pc_uod") talks to the aggregator through the same
entry points the transport uses:

  reg      RegisterEngineMsg  -> dispatcher._register_handler (what the REST route awaits)
  conn     websocket connect  -> dispatcher.on_client_connect(channel) (+ the delayed task it spawns)
  disc     websocket lost     -> dispatcher.on_client_disconnect(channel)
  restart  graceful aggregator restart as AggregatorServer.lifespan does it: aggregator.shutdown(),
           dispatcher.shutdown(); then a NEW dispatcher/Aggregator/handlers on the SAME database
  uod      UodInfoMsg (readings A, B; data_log_interval_seconds = INTERVAL)
  rs1/rs2  RunStartedMsg(run r1 / r2)          stop1/stop2  RunStoppedMsg(run r1 / r2)
  t<tags><op>[n]   TagsUpdatedMsg, see `parse_tag_event`
  bounce   macro: disc, reg, conn, uod (what a reconnecting engine does before it sends anything else);
           bounce1 = the same, but enabled at most once per history
  next     macro: stop1, rs2 (the engine's run r1 ends and run r2 begins)

Engine messages travel as on the wire: serialize(msg) -> AggregatorRpcMethods.dispatch_message_async(json).

This snapshot of the code has no ReconnectedMsg: a re-registering engine gets its run back in
FromEngine._try_restore_reconnected_engine_data from the RecentEngine row written by engine_disconnected /
Aggregator.shutdown, so "re-register" *is* the reconnect event.

A *state* is an event history; `build(hist)` creates everything afresh and replays it (about 0.7 ms per event: one
event loop and one SQLAlchemy Engine per process, the database itself is replaced per history by loading the image of
the empty schema, created once by the real metadata.create_all, with sqlite3 deserialize).  `Explorer` is a
level-synchronous BFS: small levels run in the parent, large ones through ctx.pmap (every worker rebuilds its histories
independently and returns a digest of the canonical state, the enabled events and the oracle verdict of the last step).  Each step appends an
observation record (`Sys.obs`) with the harness-side facts ("model": what the engine did/sent) and what the
aggregator holds afterwards (engine data projection + database rows); the oracles live in the check modules.

Tick times are T0 + small integers (exact floats); a reported value encodes its tag and report time
(A: v = t, B: v = t + 0.25) so that the source report of a persisted row can be identified.
Wall time read by the code under test (datetime.now / time.time) is replaced by a virtual clock.
"""
from __future__ import annotations

import asyncio
import gc
import hashlib
import json
import logging
import os
import re
from datetime import datetime as _real_datetime

logging.disable(logging.CRITICAL)

import openpectus.aggregator.aggregator as agg_mod                       # noqa: E402
import openpectus.aggregator.data.models as DMdl                         # noqa: E402
import openpectus.aggregator.data.repository as repo_mod                 # noqa: E402
import openpectus.aggregator.models as Mdl                               # noqa: E402
import openpectus.protocol.engine_messages as EM                         # noqa: E402
import openpectus.protocol.models as PM                                  # noqa: E402
from fastapi_websocket_rpc.schemas import RpcResponse                    # noqa: E402
from openpectus import __version__                                       # noqa: E402
from openpectus.aggregator.aggregator import Aggregator                  # noqa: E402
from openpectus.aggregator.aggregator_message_handlers import AggregatorMessageHandlers   # noqa: E402
from openpectus.aggregator.data import database                          # noqa: E402
from openpectus.protocol.aggregator_dispatcher import AggregatorDispatcher                # noqa: E402
from openpectus.protocol.serialization import deserialize, serialize     # noqa: E402

from mc.core import NWORKERS                                            # noqa: E402

COMPUTER, UOD = "pc", "uod"
ENGINE_ID = "pc_uod"
RUNS = {"r1": 500.0, "r2": 600.0}          # run id -> started_tick
INTERVAL = 5.0
T0 = 1000.0
TAG_OFFSET = {"A": 0.0, "B": 0.25}


# ---------------------------------------------------------------------------
# deterministic wall time for the code under test

class _Wall:
    now = 1_700_000_000.0

    @classmethod
    def tick(cls):
        cls.now += 1.0
        return cls.now


class _FakeDateTime(_real_datetime):
    @classmethod
    def now(cls, tz=None):
        return _real_datetime.fromtimestamp(_Wall.tick(), tz)


class _FakeTime:
    @staticmethod
    def time():
        return _Wall.tick()


agg_mod.datetime = _FakeDateTime
repo_mod.datetime = _FakeDateTime
agg_mod.time = _FakeTime
Mdl.time = _FakeTime


# ---------------------------------------------------------------------------
# fakes for the collaborators that are not under test

class _Recorder:
    """Async no-op for every publish_* method; counts calls."""

    def __init__(self):
        self.calls = 0

    def __getattr__(self, name):
        if name.startswith("publish_"):
            async def _pub(*a, **k):
                self.calls += 1
            return _pub
        raise AttributeError(name)


class FakePublisher(_Recorder):
    class _Notifier:
        def register_subscribe_event(self, cb):
            pass

    class _Methods:
        pass

    class _Endpoint:
        pass

    def __init__(self):
        super().__init__()
        self.pubsub_endpoint = FakePublisher._Endpoint()
        self.pubsub_endpoint.methods = FakePublisher._Methods()
        self.pubsub_endpoint.methods.event_notifier = FakePublisher._Notifier()

    def register_on_disconnect(self, cb):
        pass


class FakeChannel:
    """The websocket RPC channel of the one engine."""

    class _Other:
        def __init__(self, engine_id):
            self.engine_id = engine_id

        async def get_engine_id_async(self):
            return RpcResponse[str | None](result=self.engine_id, result_type=None)

    def __init__(self, engine_id):
        self.other = FakeChannel._Other(engine_id)
        self.closed = False
        self.default_response_timeout = None

    async def close(self):
        self.closed = True


# ---------------------------------------------------------------------------
# process-wide environment: one event loop, a schema template, a fresh database per history

_ENV = {"pid": None, "loop": None, "template": None}


def _env():
    if _ENV["pid"] != os.getpid():
        _ENV["pid"] = os.getpid()
        loop = asyncio.new_event_loop()
        _ENV["loop"] = loop
        if _ENV["template"] is None:
            database.configure_db("sqlite:///:memory:")
            DMdl.DBModel.metadata.create_all(database._engine)          # the real schema, created once
            rc = database._engine.raw_connection()
            _ENV["template"] = rc.driver_connection.serialize()
            rc.close()
            database._engine.dispose()
    return _ENV


def _fresh_db():
    """A fresh in-memory database with the schema of DBModel.metadata: the image of the empty schema is
    loaded over the connection's database (sqlite3 deserialize replaces the whole database).  The SQLAlchemy
    Engine object is configured once per process by the real configure_db (keeps its statement cache warm)."""
    env = _env()
    if env.get("engine_pid") != os.getpid():
        if env.get("engine_pid") is None or database._engine is None:
            database.configure_db("sqlite:///:memory:")
        else:                       # forked worker: keep the Engine (warm statement cache), drop the inherited connection
            database._engine.dispose(close=False)
        env["engine_pid"] = os.getpid()
    rc = database._engine.raw_connection()
    raw = rc.driver_connection
    raw.rollback()
    raw.deserialize(env["template"])
    rc.close()
    return raw


async def _drain():
    cur = asyncio.current_task()
    while True:
        rest = [t for t in asyncio.all_tasks() if t is not cur]
        if not rest:
            return
        await asyncio.gather(*rest, return_exceptions=True)


def _run(coro):
    loop = _env()["loop"]
    res = loop.run_until_complete(coro)
    loop.run_until_complete(_drain())
    return res


# ---------------------------------------------------------------------------
# events

MACROS = {"bounce": ("disc", "reg", "conn", "uod"),      # the engine loses the connection and comes back
          "bounce1": ("disc", "reg", "conn", "uod"),     # the same, enabled only while no bounce has happened yet
          "next": ("stop1", "rs2")}                      # run r1 ends, run r2 begins

_TAG_EV = re.compile(r"^t([ABM]+)([+\-=])(\d*)(n?)$")          # M = the system tag Mark (a text value; not one of the uod readings)


def parse_tag_event(ev: str):
    """t<tags><op><k>[n]:  tA+6 = tag A at clock+6 (clock = latest tick time reported so far), tA-3 = A at clock-3
    (out of order), tA= = the previous A report again (same time, same value), tAB+6 = both tags in one message;
    suffix n = message carries run_id None although the engine has a run (the engine's snapshot message)."""
    m = _TAG_EV.match(ev)
    if not m:
        return None
    tags, op, k, n = m.groups()
    return list(tags), op, (float(k) if k else 0.0), bool(n)


def value_of(tag: str, t: float) -> float:
    return t + TAG_OFFSET[tag]


def source_of(tag: str, v) -> float | None:
    """Report time encoded in a value of `tag` (None if the value cannot be one of this tag's values)."""
    if not isinstance(v, float):
        return None
    t = v - TAG_OFFSET[tag]
    return t if t == int(t) else None


def _reading(tag):
    return PM.ReadingInfo(discriminator="reading", tag_name=tag, valid_value_units=None, entry_data_type=None,
                          commands=[], command_options=None)


class Model:
    """Harness-side facts (what the engine did and sent); never read from the aggregator."""

    def __init__(self):
        self.registered = False
        self.connected = False
        self.uod_since_reg = False
        self.eng_run: str | None = None          # the run the engine is in, as told to the aggregator
        self.started: list[str] = []             # run ids whose run_started was delivered (first delivery order)
        self.stopped: list[str] = []             # run ids whose run_stopped was delivered after their start
        self.superseded: list[str] = []          # runs replaced by another run_started without a run_stopped
        self.interrupts: dict[str, list[str]] = {}   # run id -> kinds of interruption (disc/restart) that happened while it was the engine's run
        self.reopened: list[str] = []            # runs whose run_started was delivered again after they were stopped/superseded
        self.misclosed: list[str] = []           # runs during which a run_stopped of ANOTHER run id was delivered
        self.misclosed_restarted: list[str] = []  # ... and whose run_started was delivered again afterwards
        self.broken = False                      # an aggregator entry point raised: the history is not extended further
        self.reports: set[tuple[str, float]] = set()  # (tag, t) delivered in any TagsUpdatedMsg
        self.last_report: dict[str, float] = {}
        self.clock = T0
        self.bounces = 0

    def snapshot(self):
        return dict(registered=self.registered, connected=self.connected, uod_since_reg=self.uod_since_reg,
                    eng_run=self.eng_run, started=list(self.started), stopped=list(self.stopped),
                    superseded=list(self.superseded), reopened=list(self.reopened), misclosed=list(self.misclosed),
                    misclosed_restarted=list(self.misclosed_restarted),
                    interrupts={k: list(v) for k, v in self.interrupts.items()},
                    clock=self.clock, kills=getattr(self, "kills", 0))


def enabled(m: Model, alphabet):
    out = []
    if getattr(m, "broken", False):
        return out
    for ev in alphabet:
        if ev == "reg":
            ok = not m.connected
        elif ev == "conn":
            ok = m.registered and not m.connected
        elif ev in ("disc", "bounce"):
            ok = m.connected
        elif ev == "bounce1":
            ok = m.connected and m.bounces == 0
        elif ev in ("restart", "kill"):
            ok = True
        elif ev == "next":
            ok = m.connected and m.eng_run == "r1"
        elif ev == "rs2":
            ok = m.connected and "r1" in m.started
        elif ev == "stop1":
            ok = m.connected and "r1" in m.started
        elif ev == "stop2":
            ok = m.connected and "r2" in m.started
        else:
            ok = m.connected
            p = parse_tag_event(ev)
            if ok and p and p[1] == "=":
                ok = all(t in m.last_report for t in p[0])
        if ok:
            out.append(ev)
    return out


class Sys:
    def __init__(self):
        _Wall.now = 1_700_000_000.0          # every execution starts at the same virtual wall time
        self.raw = _fresh_db()
        self.model = Model()
        self.obs: list[dict] = []
        self.incarnation = 0
        self._new_aggregator()

    # -- aggregator life cycle -------------------------------------------------
    def _new_aggregator(self):
        self.incarnation += 1
        self.dispatcher = AggregatorDispatcher()
        self.publisher = FakePublisher()
        self.webpush = _Recorder()
        self.agg = Aggregator(self.dispatcher, self.publisher, self.webpush)
        self.handlers = AggregatorMessageHandlers(self.agg)
        self.channel = None

    def _send(self, msg: EM.EngineMessage) -> str:
        msg.engine_id = ENGINE_ID
        wire = serialize(msg)
        out = _run(self.dispatcher.endpoint.methods.dispatch_message_async(message_json=wire))
        reply = deserialize(json.loads(out))
        name = type(reply).__name__
        if name != "SuccessMessage":
            name += ":" + str(getattr(reply, "protocol_msg", None) or getattr(reply, "message", ""))[:60]
        return name

    # -- one event ---------------------------------------------------------------
    def apply(self, ev: str) -> dict:
        m = self.model
        rec = {"i": len(self.obs), "ev": ev, "pre": m.snapshot(), "pre_db": self.obs[-1]["db"] if self.obs else self.db_rows(),
               "pre_agg": self.obs[-1]["agg"] if self.obs else self.agg_view(), "reply": None, "sent": None}
        rec["raised"] = None
        try:
            if ev in MACROS:
                if ev.startswith("bounce"):
                    m.bounces += 1
                replies = [self._do(e, rec) for e in MACROS[ev]]
                rec["reply"] = ",".join(str(r) for r in replies)
            else:
                rec["reply"] = self._do(ev, rec)
        except Exception as ex:           # noqa: BLE001 - an entry point of the aggregator raised: reported by the checks
            rec["raised"] = f"{type(ex).__name__}: {str(ex)[:160]}"
            rec["reply"] = f"RAISED:{type(ex).__name__}"
            m.broken = True               # nothing is explored beyond this point (the session may be unusable)
            try:
                from openpectus.aggregator.data import database
                database.scoped_session().rollback()
            except Exception:             # noqa: BLE001
                pass
        rec["post"] = m.snapshot()
        rec["agg"] = self.agg_view()
        rec["db"] = self.db_rows()
        old = {r[0] for r in rec["pre_db"]["values"]}
        rec["new_rows"] = [r for r in rec["db"]["values"] if r[0] not in old]
        # the harness model of the connection must agree with the real dispatcher/aggregator
        rec["desync"] = (m.registered != rec["agg"]["registered"]) or (m.connected != rec["agg"]["connected"])
        self.obs.append(rec)
        return rec

    def _do(self, ev: str, rec: dict):
        m = self.model
        if ev == "reg":
            msg = EM.RegisterEngineMsg(computer_name=COMPUTER, uod_name=UOD, uod_author_name="a", uod_author_email="e",
                                       uod_filename="f", location="l", engine_version=__version__)
            reply = _run(self.dispatcher._register_handler(deserialize(serialize(msg))))
            if reply.success:
                if not m.registered:
                    m.uod_since_reg = False
                m.registered = True
            return f"RegisterEngineReplyMsg(success={reply.success})"
        if ev == "conn":
            self.channel = FakeChannel(ENGINE_ID)
            _run(self.dispatcher.on_client_connect(self.channel))
            m.connected = not self.channel.closed
            return "closed" if self.channel.closed else "connected"
        if ev == "disc":
            _run(self.dispatcher.on_client_disconnect(self.channel))
            m.connected = False
            m.registered = False                      # the aggregator forgets a disconnected engine
            m.row_run = m.eng_run                     # what the engine's RecentEngine row can say from now on (written at disconnect)
            if m.eng_run is not None and "disc" not in m.interrupts.setdefault(m.eng_run, []):
                m.interrupts[m.eng_run] = sorted(m.interrupts[m.eng_run] + ["disc"])
            return "disconnected"
        if ev == "restart":
            self.agg.shutdown()
            _run(self.dispatcher.shutdown())
            self._new_aggregator()
            if m.connected or m.registered:
                m.row_run = m.eng_run                 # a graceful shutdown writes the row of every engine it still knows
            m.connected = False
            m.registered = False
            if m.eng_run is not None and "restart" not in m.interrupts.setdefault(m.eng_run, []):
                m.interrupts[m.eng_run] = sorted(m.interrupts[m.eng_run] + ["restart"])
            return "restarted"
        if ev == "kill":
            # the aggregator process dies (no shutdown handling, nothing is written) and comes back on the same database.
            # A run whose interruption the database has never heard of (no disconnect / graceful restart during it so far; the
            # engine's row was last written before this run (re)started) cannot be continued: it is taken out of the oracles' scope like a misclosed one; a run that was interrupted
            # and given back before is expected to be given back again.
            self._new_aggregator()
            m.connected = False
            m.registered = False
            m.kills = getattr(m, "kills", 0) + 1
            if m.eng_run is not None:
                if m.interrupts.get(m.eng_run) and getattr(m, "row_run", None) == m.eng_run:
                    if "kill" not in m.interrupts[m.eng_run]:
                        m.interrupts[m.eng_run] = sorted(m.interrupts[m.eng_run] + ["kill"])
                elif m.eng_run not in m.misclosed:
                    m.misclosed.append(m.eng_run)
            return "killed"
        if ev == "uod":
            msg = EM.UodInfoMsg(readings=[_reading("A"), _reading("B")], commands=[],
                                uod_definition=PM.UodDefinition(commands=[], system_commands=[], tags=[]),
                                plot_configuration=PM.PlotConfiguration.empty(), hardware_str="hw",
                                required_roles=set(), data_log_interval_seconds=INTERVAL)
            r = self._send(msg)
            m.uod_since_reg = True
            # like the real engine, follow up with a snapshot of all tags: System State and every tag reported so far, each
            # with the time and value of its last report
            snap = [self._system_state_tag(m.clock)]
            for tag in sorted(m.last_report):
                t = m.last_report[tag]
                if tag == "M":
                    snap.append(PM.TagValue(name="Mark", tick_time=t, value=f"mark at {t}", value_unit=None))
                    continue
                snap.append(PM.TagValue(name=tag, tick_time=t, value=value_of(tag, t), value_unit="u"))
            self._send(EM.TagsUpdatedMsg(tags=snap, run_id=m.eng_run))
            return r
        if ev in ("rs1", "rs2"):
            rid = "r" + ev[-1]
            r = self._send(EM.RunStartedMsg(run_id=rid, started_tick=RUNS[rid]))
            if rid in m.misclosed and rid not in m.misclosed_restarted:
                m.misclosed_restarted.append(rid)
            if rid not in m.started:
                m.started.append(rid)
            elif (rid in m.stopped or rid in m.superseded) and m.eng_run != rid and rid not in m.reopened:
                m.reopened.append(rid)
            if m.eng_run is not None and m.eng_run != rid and m.eng_run not in m.superseded:
                m.superseded.append(m.eng_run)
            m.eng_run = rid
            m.interrupts.setdefault(rid, [])
            return r
        if ev in ("stop1", "stop2"):
            rid = "r" + ev[-1]
            r = self._send(EM.RunStoppedMsg(run_id=rid, runlog=PM.RunLog.empty(), method_state=PM.MethodState.empty(),
                                            archive=None, archive_filename=None))
            if rid in m.started and rid not in m.stopped:
                m.stopped.append(rid)
            if m.eng_run is not None and m.eng_run != rid and m.eng_run not in m.misclosed:
                m.misclosed.append(m.eng_run)
            if m.eng_run == rid:
                m.eng_run = None
            return r
        p = parse_tag_event(ev)
        if p is None:
            raise ValueError(ev)
        tags, op, k, no_run = p
        tvs = []
        sent = []
        for tag in tags:
            if op == "+":
                t = m.clock + k
            elif op == "-":
                t = m.clock - k
            else:
                t = m.last_report[tag]
            sent.append((tag, t))
        for tag, t in sent:
            if tag == "M":
                tvs.append(PM.TagValue(name="Mark", tick_time=t, value=f"mark at {t}", value_unit=None))
                continue
            tvs.append(PM.TagValue(name=tag, tick_time=t, value=value_of(tag, t), value_unit="u"))
        tvs.append(self._system_state_tag(sent[0][1]))        # every report carries the engine's System State
        run_id = None if no_run else m.eng_run
        rec["sent"] = {"run": run_id, "tags": sent}
        r = self._send(EM.TagsUpdatedMsg(tags=tvs, run_id=run_id))
        for tag, t in sent:
            m.reports.add((tag, t))
            m.last_report[tag] = t
            m.clock = max(m.clock, t)
        return r

    def _system_state_tag(self, t: float):
        return PM.TagValue(name="System State", tick_time=t, value="Running" if self.model.eng_run is not None else "Stopped",
                           value_unit=None)

    # -- observation -----------------------------------------------------------------
    def agg_view(self) -> dict:
        ed = self.agg.get_registered_engine_data(ENGINE_ID)
        v = {"registered": ed is not None, "connected": self.dispatcher.has_connected_engine_id(ENGINE_ID),
             "run": None, "run_started": None, "latest": None, "tags": {}, "interval": None, "readings": []}
        if ed is not None:
            if ed.has_run():
                v["run"] = ed.run_data.run_id
                v["run_started"] = ed.run_data.run_started.timestamp()
                v["latest"] = ed.run_data.latest_persisted_tick_time
            v["tags"] = {n: (tv.tick_time, tv.value) for n, tv in sorted(ed.tags_info.map.items())}
            v["interval"] = ed.data_log_interval_seconds
            v["readings"] = sorted(r.tag_name for r in ed.readings)
        return v

    def db_rows(self) -> dict:
        c = self.raw
        q = lambda s: [tuple(r) for r in c.execute(s).fetchall()]        # noqa: E731
        plot_logs = q("SELECT id, engine_id, run_id FROM PlotLogs ORDER BY id")
        entries = q("SELECT id, plot_log_id, name, value_unit, value_type FROM PlotLogEntries ORDER BY id")
        pl_run = {p[0]: p[2] for p in plot_logs}
        en = {e[0]: e for e in entries}
        values = []
        for vid, eid, tick, vs, vf, vi in q("SELECT id, plot_log_entry_id, tick_time, value_str, value_float, value_int "
                                            "FROM PlotLogEntryValues ORDER BY id"):
            e = en.get(eid)
            val = vi if vi is not None else vf if vf is not None else vs
            values.append((vid, e[1] if e else None, pl_run.get(e[1]) if e else None, e[2] if e else None, tick, val))
        return {
            "plot_logs": plot_logs,
            "entries": entries,
            "values": values,                 # (id, plot_log_id, run_id of that plot log, tag, tick_time, value)
            "recent_runs": q("SELECT id, engine_id, run_id, started_date FROM RecentRuns ORDER BY id"),
            "recent_engines": q("SELECT id, engine_id, run_id, run_started, system_state FROM RecentEngines ORDER BY id"),
            "run_children": [q(f"SELECT run_id FROM {t} ORDER BY id") for t in
                             ("RecentRunMethodAndStates", "RecentRunRunLogs", "RecentRunErrorLogs", "RecentRunPlotConfigurations")],
        }


def build(hist, prefix=()) -> Sys:
    s = Sys()
    for ev in tuple(prefix) + tuple(hist):
        s.apply(ev)
    return s


def count_by_run(rows, col=2) -> dict:
    out: dict = {}
    for r in rows:
        out[r[col]] = out.get(r[col], 0) + 1
    return out


# ---------------------------------------------------------------------------
# canonical state

def canon(s: Sys):
    """Aggregator state (engine data projection + database rows in id order, ids dropped) + the harness facts that
    decide enabledness and future oracle verdicts.  Tick times are taken relative to the model clock: the code under
    test only ever compares differences of tick times."""
    m = s.model
    rec_agg = s.agg_view()
    db = s.db_rows()
    c = m.clock

    def rel(t):
        return None if t is None else t - c
    agg = (rec_agg["registered"], rec_agg["connected"], rec_agg["run"], rec_agg["run_started"], rel(rec_agg["latest"]),
           tuple((n, rel(t), rel(source_of(n, v)) if source_of(n, v) is not None else repr(v)) for n, (t, v) in rec_agg["tags"].items()),
           rec_agg["interval"], tuple(rec_agg["readings"]))
    pl_index = {p[0]: i for i, p in enumerate(db["plot_logs"])}
    plot_logs = tuple((p[1], p[2]) for p in db["plot_logs"])
    entries = tuple(sorted((pl_index.get(e[1]), e[2], e[3], e[4]) for e in db["entries"]))
    values = tuple((pl_index.get(v[1]), v[3], rel(v[4]), rel(source_of(v[3], v[5])) if v[3] in TAG_OFFSET and source_of(v[3], v[5]) is not None else repr(v[5]))
                   for v in db["values"])
    dbk = (plot_logs, entries, values,
           tuple(r[1:] for r in db["recent_runs"]), tuple(r[1:] for r in db["recent_engines"]),
           tuple(tuple(x) for x in db["run_children"]))
    mk = (getattr(m, "kills", 0) > 0, getattr(m, "row_run", None), m.bounces, m.registered, m.connected, m.uod_since_reg, m.eng_run, tuple(m.started), tuple(m.stopped), tuple(m.superseded), tuple(m.reopened), tuple(m.misclosed), tuple(m.misclosed_restarted),
          tuple(sorted((k, tuple(v)) for k, v in m.interrupts.items())),
          tuple(sorted((tag, rel(t)) for tag, t in m.reports)),
          tuple(sorted((tag, rel(t)) for tag, t in m.last_report.items())))
    return (agg, dbk, mk)


def canon_digest(s: Sys) -> str:
    return hashlib.sha1(repr(canon(s)).encode()).hexdigest()


# ---------------------------------------------------------------------------
# level-synchronous parallel BFS over histories (every transition is executed on the real aggregator)

SERIAL_BELOW = 800      # levels with fewer transitions are executed in the parent (6-10 ms per transition)
PER_WORKER = 400        # a forked worker pays ~3000 copy-on-write page faults (2-5 CPU s on this VM) before its first result:
                        # give every worker at least this many transitions (~3 s of work)


class Explorer:
    """Level-synchronous BFS.  worker(item) with item = (prefix, hist, ev, alphabet) executes the history hist + (ev,)
    on a fresh real aggregator and returns (digest of the canonical state, events enabled afterwards, payload).
    One history per canonical state is expanded; small levels run in the parent, large ones through ctx.pmap."""

    def __init__(self, ctx, worker, prefix, alphabet, depth):
        self.ctx, self.worker, self.prefix, self.alphabet, self.depth = ctx, worker, tuple(prefix), tuple(alphabet), depth
        self.states = 0
        self.transitions = 0
        self.per_level: list[tuple[int, int]] = []
        self.samples: list[list[str]] = []
        self.cut_at_bound = 0

    def run(self, on_result):
        s0 = build((), self.prefix)
        seen = {canon_digest(s0)}
        self.states = 1
        frontier = [((), enabled(s0.model, self.alphabet))]
        for d in range(self.depth):
            items = [(self.prefix, h, ev, self.alphabet) for h, evs in frontier for ev in evs]
            if len(items) < SERIAL_BELOW:
                results = [self.worker(it) for it in items]
            else:
                gc.collect()
                gc.freeze()              # keep the collector of the forked workers off the inherited heap
                results = self.ctx.pmap(self.worker, items, workers=min(NWORKERS, max(2, len(items) // PER_WORKER)))
                gc.unfreeze()
            nxt = []
            for (_, h, ev, _), (dig, en, payload) in zip(items, results):
                self.transitions += 1
                on_result(h, ev, payload)
                if dig not in seen:
                    seen.add(dig)
                    self.states += 1
                    nxt.append((h + (ev,), en))
            self.per_level.append((len(items), len(nxt)))
            if nxt:
                self.samples = [list(h) for h, _ in nxt[-3:]]
            frontier = nxt
            if not frontier:
                break
        self.cut_at_bound = sum(1 for _, evs in frontier if evs)
        return self


def fmt_step(rec) -> str:
    a = rec["agg"]
    db = rec["db"]
    return (f"{rec['i']:2d} {rec['ev']:8s} reply={rec['reply']} sent={rec['sent']} | agg: registered={a['registered']} connected={a['connected']} "
            f"run={a['run']} latest={a['latest']} tags={a['tags']} interval={a['interval']} | db: plot_logs={[(p[0], p[2]) for p in db['plot_logs']]} "
            f"recent_runs={[(r[0], r[2]) for r in db['recent_runs']]} recent_engine_run={[r[2] for r in db['recent_engines']]} "
            f"new_rows={[(r[1], r[2], r[3], r[4], r[5]) for r in rec['new_rows']]}")
