"""Engine harness (DESIGN §1.3): real Engine + real UodBuilder UOD + recording hardware, driven tick by tick
with virtual time and deterministic ids.  One `Run` is one execution; runs are never copied (generators), a
state is the history that reaches it.
"""
from __future__ import annotations

import logging
import os
import time as _time_mod
import uuid as _uuid_mod
from typing import Any

logging.disable(logging.CRITICAL)

REAL_TIME = _time_mod.time
REAL_UUID4 = _uuid_mod.uuid4


class _Det:
    """Process-wide deterministic replacements for time.time and uuid.uuid4."""
    now = 0.0
    wall_offset = 0.037          # wall-clock reads land inside the tick interval, never on a tick time
    counter = 0
    installed = False


def vtime():
    return _Det.now + _Det.wall_offset


def vuuid4():
    _Det.counter += 1
    return _uuid_mod.UUID(int=_Det.counter)


def install_determinism():
    if not _Det.installed:
        _time_mod.time = vtime
        _uuid_mod.uuid4 = vuuid4
        _Det.installed = True


def uninstall_determinism():
    _time_mod.time = REAL_TIME
    _uuid_mod.uuid4 = REAL_UUID4
    _Det.installed = False


install_determinism()

import openpectus.protocol.models as Mdl                                   # noqa: E402
from openpectus.engine.engine import Engine, EngineTiming                   # noqa: E402
from openpectus.engine.hardware import HardwareLayerBase, RegisterDirection  # noqa: E402
from openpectus.lang.exec.clock import WallClock                            # noqa: E402
from openpectus.lang.exec.errors import MethodEditError                     # noqa: E402
from openpectus.lang.exec.tags import Tag, TagDirection, SystemTagName      # noqa: E402
from openpectus.lang.exec.tags_impl import ReadingTag, SelectTag, DerivedTag            # noqa: E402
from openpectus.lang.exec.timer import NullTimer                            # noqa: E402
from openpectus.lang.exec.uod import UodBuilder, UodCommand                 # noqa: E402
from openpectus.lang.exec.regex import RegexNumber, RegexCategorical        # noqa: E402

T0 = 1_000_000.0
DT = 0.1
UNKNOWN = "UNKNOWN"


class RecHW(HardwareLayerBase):
    def __init__(self, run: "Run"):
        super().__init__()
        self.run = run
        self.mem: dict[str, Any] = {}
        self.inputs: dict[str, Any] = {"In1": 0.0, "X": 0.0, "Tot": 0.0}     # X mirrors In1 (condition tag)
        self.wlog: list[tuple[int, str, Any, dict]] = []
        self._is_connected = True

    def init_mem(self):
        for r in self._registers.values():
            if r.direction == RegisterDirection.Both:
                self.mem[r.name] = 0.0                # an output that can be read back: readable power-on content
            elif RegisterDirection.Write in r.direction:
                self.mem[r.name] = UNKNOWN

    def _read(self, r):
        return self.inputs[r.name] if r.name in self.inputs else self.mem[r.name]

    def read(self, r):
        return self._read(r)

    def read_batch(self, registers):
        return [self._read(r) for r in registers]

    def write(self, value, r):
        self.mem[r.name] = value
        self.wlog.append((self.run.tickno, r.name, value, self.run.flags()))

    def write_batch(self, values, registers):
        fl = self.run.flags()
        for v, r in zip(values, registers):
            self.mem[r.name] = v
            self.wlog.append((self.run.tickno, r.name, v, fl))

    def connect(self):
        self._is_connected = True

    def disconnect(self):
        self._is_connected = False


def make_uod(run: "Run", totalizer=True):
    ev = run.cmd_events

    def log(cmd: UodCommand, phase: str):
        ev.append((run.tickno, cmd.name, phase, cmd.instance_id, cmd.get_iteration_count()))

    def init(cmd):
        log(cmd, "init")

    def fin(cmd):
        log(cmd, "finalize")

    def fin_boom(cmd):
        # a finalizer that fails (hardware clean-up fails) after having done its work
        log(cmd, "finalize")
        raise RuntimeError("finalizer failed")

    def inst(cmd: UodCommand, **kw):
        log(cmd, "exec")
        cmd.set_complete()

    def long_(cmd: UodCommand, number, number_unit=None, **kw):
        log(cmd, "exec")
        if cmd.get_iteration_count() + 1 >= int(float(number)):
            cmd.set_complete()

    def long2(cmd: UodCommand, **kw):
        log(cmd, "exec")
        if cmd.get_iteration_count() >= 1:
            cmd.set_complete()

    def hang(cmd: UodCommand, **kw):
        log(cmd, "exec")

    def ov(cmd: UodCommand, **kw):
        log(cmd, "exec")
        if cmd.get_iteration_count() >= 2:
            cmd.set_complete()

    def setout(cmd: UodCommand, number, number_unit=None, **kw):
        log(cmd, "exec")
        cmd.context.tags["Out1"].set_value(float(number), run.now)
        if cmd.get_iteration_count() >= 3:
            cmd.set_complete()

    def set1(cmd: UodCommand, number, number_unit=None, **kw):
        # instant variant of SetOut (C09): sets Out1 once and completes in the same tick
        log(cmd, "exec")
        cmd.context.tags["Out1"].set_value(float(number), run.now)
        cmd.set_complete()

    def on1(cmd: UodCommand, **kw):
        # argument-less commands a user can issue directly (also during a pause): On1 drives Out1, OpenV opens Out2
        log(cmd, "exec")
        cmd.context.tags["Out1"].set_value(9.0, run.now)
        cmd.context.tags["Out4"].set_value(9.0, run.now)
        cmd.set_complete()

    def fail_cmd(cmd: UodCommand, **kw):
        # argument-less command that fails when executed (an engine error that can happen while the run is paused)
        log(cmd, "exec")
        raise ValueError("Fail command failed")

    def openv(cmd: UodCommand, **kw):
        log(cmd, "exec")
        cmd.context.tags["Out2"].set_value("Open", run.now)
        cmd.set_complete()

    def area(cmd: UodCommand, number, number_unit, **kw):
        log(cmd, "exec")
        cmd.set_complete()

    def valve(cmd: UodCommand, option, **kw):
        log(cmd, "exec")
        cmd.context.tags["Out2"].set_value(option, run.now)
        cmd.set_complete()

    def dose(cmd: UodCommand, number, number_unit, **kw):
        log(cmd, "exec")
        cmd.set_complete()

    def boom(cmd: UodCommand, number, number_unit=None, **kw):
        log(cmd, "exec")
        if cmd.get_iteration_count() + 1 >= int(float(number)):
            raise RuntimeError("Boom")

    hw = RecHW(run)
    level = Tag("Level", value=5.0, unit=None)          # constant; input of the derived tag below

    def _twice(v):
        return None if v is None else 2 * v

    b = (UodBuilder()
         .with_instrument("VerifUod")
         .with_author("verif", "verif@example.invalid")
         .with_filename(__file__)
         .with_hardware(hw)
         .with_location("lab")
         .with_hardware_register("In1", RegisterDirection.Read)
         .with_hardware_register("X", RegisterDirection.Read)
         .with_hardware_register("Tot", RegisterDirection.Read)
         .with_hardware_register("Out1", RegisterDirection.Write, safe_value=0.0)
         .with_hardware_register("Out2", RegisterDirection.Write, safe_value="Closed")
         .with_hardware_register("Free", RegisterDirection.Write)
         .with_hardware_register("Out3", RegisterDirection.Both, safe_value=1.5)     # output that is read back
         .with_hardware_register("Out4", RegisterDirection.Write, safe_value=0.0)    # output whose tag does not declare a direction
         .with_tag(ReadingTag("In1", None))
         .with_tag(ReadingTag("X", None))
         .with_tag(ReadingTag("Tot", "L"))
         .with_tag(Tag("Out1", value=0.0, unit=None, direction=TagDirection.Output))
         .with_tag(SelectTag("Out2", value="Closed", unit=None, choices=["Open", "Closed"], direction=TagDirection.Output))
         .with_tag(Tag("Free", value=0.0, unit=None, direction=TagDirection.Output))
         .with_tag(Tag("Out3", value=0.0, unit=None, direction=TagDirection.Output))
         .with_tag(Tag("Out4", value=0.0, unit=None))
         .with_tag(Tag("Temp", value=20.0, unit="degC"))
         .with_tag(DerivedTag("Twice", fn=_twice, input_tags=[level]))     # registered before its input tag
         .with_tag(level)
         .with_tag(Tag("Conc", value=10.0, unit="vol%"))         # percentage family: are_comparable is not symmetric there
         .with_tag(Tag("Pct", value=10.0, unit="%"))
         .with_command(name="Inst", exec_fn=inst, init_fn=init, finalize_fn=fin, arg_parse_fn=None)
         .with_command_regex_arguments("Long", RegexNumber(units=None, non_negative=True, int_only=True), long_, init, fin)
         .with_command(name="FinBoom", exec_fn=long2, init_fn=init, finalize_fn=fin_boom, arg_parse_fn=None)
         .with_command(name="Hang", exec_fn=hang, init_fn=init, finalize_fn=fin, arg_parse_fn=None)
         .with_command(name="On1", exec_fn=on1, init_fn=init, finalize_fn=fin, arg_parse_fn=None)
         .with_command(name="OpenV", exec_fn=openv, init_fn=init, finalize_fn=fin, arg_parse_fn=None)
         .with_command(name="Fail", exec_fn=fail_cmd, init_fn=init, finalize_fn=fin, arg_parse_fn=None)
         .with_command(name="OvA", exec_fn=ov, init_fn=init, finalize_fn=fin, arg_parse_fn=None)
         .with_command(name="OvB", exec_fn=ov, init_fn=init, finalize_fn=fin, arg_parse_fn=None)
         .with_command(name="OvC", exec_fn=ov, init_fn=init, finalize_fn=fin, arg_parse_fn=None)
         .with_command_overlap(["OvA", "OvB"])
         .with_command_overlap(["OvB", "OvC"])       # OvB is in two overlap lists
         .with_command_regex_arguments("SetOut", RegexNumber(units=None), setout, init, fin)
         .with_command_regex_arguments("Set1", RegexNumber(units=None), set1, init, fin)
         # a hand-written pattern that is not anchored (like the example in the project's documentation)
         .with_command_regex_arguments("Area", r"(?P<number>[0-9]+[.][0-9]*?|[.][0-9]+|[0-9]+) ?(?P<number_unit>m2)", area, init, fin)
         .with_command_regex_arguments("Valve", RegexCategorical(exclusive_options=["Open", "Closed"]), valve, init, fin)
         .with_command_regex_arguments("Dose", RegexNumber(units=["L", "mL"]), dose, init, fin)
         .with_command_regex_arguments("Boom", RegexNumber(units=None, non_negative=True, int_only=True), boom, init, fin)
         )
    if totalizer:
        b = b.with_accumulated_volume("Tot")
    uod = b.build()
    hw.init_mem()
    return uod, hw


SYS_TAGS = ("System State", "Method Status", "Run Id", "Process Time", "Run Time", "Block Time", "Scope Time",
            "Block", "Base", "Mark", "Run Counter")


def lines_of(text_or_lines) -> list[tuple[str, str]]:
    """Accepts pcode text or a list of (id, content)."""
    if isinstance(text_or_lines, str):
        return [(f"L{i}", c) for i, c in enumerate(text_or_lines.split("\n"))]
    return [tuple(x) for x in text_or_lines]


def to_method(lines, version=0) -> Mdl.Method:
    return Mdl.Method(lines=[Mdl.MethodLine(id=i, content=c) for i, c in lines], version=version)


class Run:
    """One execution.  `observe` selects the per-tick observers (all on by default)."""

    def __init__(self, method=None, totalizer=True, start=True, observe=("tags", "mstate", "runlog", "updates"),
                 wall_offset=0.037, built_before_start: float = 0.0, initial_version: int = 0):
        install_determinism()
        _Det.counter = 0
        _Det.wall_offset = wall_offset
        self.tickno = -1
        self.now = T0
        _Det.now = T0 - built_before_start          # the UOD and the engine are constructed this long before the engine is started
        self.cmd_events: list = []
        self.observe = set(observe)
        self.uod, self.hw = make_uod(self, totalizer)
        self.engine = Engine(self.uod, EngineTiming(WallClock(), NullTimer(), DT, 1.0))
        self.e = self.engine
        self.obs: list[dict] = []
        self.requests: list[dict] = []
        self.lines: list[tuple[str, str]] = []
        self.tick_exceptions: list = []
        self.runlog_errors: list = []
        self.increment = DT
        _Det.now = T0
        self.engine.run(skip_timer_start=True)
        self._wl0 = 0
        self._ev0 = 0
        self.on_stop_runlogs: list = []
        self.injected_nodes: list = []
        self.on_stop_failure_nodes: dict = {}
        self._hook_on_stop()
        self._hook_error_state()
        if method is not None:
            self.lines = lines_of(method)
            self.engine.set_method(to_method(self.lines, version=initial_version))
        if start:
            self.user("Start")

    # -- helpers -------------------------------------------------------------
    def _hook_error_state(self):
        """Record every entry into the error state (Engine.set_error_state) with its tick."""
        run = self
        self.error_events: list = []
        orig = self.engine.set_error_state

        def set_error_state(exception):
            run.error_events.append((run.tickno, type(exception).__name__, str(exception)[:100]))
            return orig(exception)
        self.engine.set_error_state = set_error_state

    def _hook_on_stop(self):
        """Capture the run log at the moment emit_on_stop fires (that is when EngineRunner builds RunStoppedMsg)."""
        run = self
        emitter = self.engine.emitter
        orig = emitter.emit_on_stop

        def emit_on_stop():
            try:
                run.on_stop_runlogs.append((run.tickno, run.runlog_items()))
            except Exception as ex:  # recorded; C15 reports it
                run.on_stop_runlogs.append((run.tickno, f"ERR:{type(ex).__name__}:{run.diagnose_runlog_failure()}"))
                run.on_stop_failure_nodes[run.tickno] = run.last_runlog_failure_node
            return orig()
        emitter.emit_on_stop = emit_on_stop

    def flags(self) -> dict:
        e = self.engine
        return {"started": e._runstate_started, "paused": e._runstate_paused, "holding": e._runstate_holding,
                "stopping": e._runstate_stopping}

    def tag(self, name):
        return self.engine.tags[name].get_value()

    def state(self):
        return str(self.tag("System State"))

    def cleanup(self):
        try:
            self.engine.cleanup()
        except Exception:
            pass

    # -- requests -------------------------------------------------------------
    def user(self, name: str) -> dict:
        rec = {"tick": self.tickno, "kind": "user", "name": name, "state_before": self.state(),
               "flags_before": self.flags(), "accepted": True, "error": None}
        try:
            self.engine.execute_control_command_from_user(name)
        except Exception as ex:
            rec["accepted"] = False
            rec["error"] = f"{type(ex).__name__}"
        self.requests.append(rec)
        return rec

    def set_method(self, lines, version_mode=None) -> dict:
        """version_mode: None = version 0 (the engine numbers the method itself); "same" = the version the engine's program has now;
        "next" = that version + 1 (what an aggregator that counts along sends)"""
        lines = lines_of(lines)
        version = 0
        if version_mode is not None:
            cur = int(getattr(self.engine.method_manager.program, "version", 0) or 0)
            version = cur if version_mode == "same" else cur + 1
        rec = {"tick": self.tickno, "kind": "edit", "accepted": True, "error": None, "mode": None,
               "mstate_before": self.method_state(), "interrupts_before": len(self.engine.interpreter.interrupts)}
        try:
            rec["mode"] = self.engine.set_method(to_method(lines, version=version))
            self.lines = lines
        except MethodEditError as ex:
            rec["accepted"] = False
            rec["error"] = "MethodEditError"
            rec["msg"] = str(ex)[:200]
        except Exception as ex:
            rec["accepted"] = False
            rec["error"] = type(ex).__name__
            rec["msg"] = str(ex)[:200]
        rec["mstate_after"] = self.method_state()
        self.requests.append(rec)
        return rec

    def inject(self, pcode: str) -> dict:
        rec = {"tick": self.tickno, "kind": "inject", "code": pcode, "accepted": True, "error": None,
               "mstate_before": self.method_state()}
        try:
            self.engine.inject_code(pcode)
        except Exception as ex:
            rec["accepted"] = False
            rec["error"] = type(ex).__name__
        rec["mstate_after"] = self.method_state()
        self.requests.append(rec)
        # the injected nodes are not part of the program tree: remember them so that their flags can be observed
        try:
            for it in self.engine.interpreter.interrupts:
                if type(it.node).__name__ == "InjectedNode" and all(it.node is not n for n in self.injected_nodes):
                    self.injected_nodes.append(it.node)
        except Exception:
            pass
        return rec

    def cancel(self, instance_id: str) -> dict:
        rec = {"tick": self.tickno, "kind": "cancel", "id": instance_id, "accepted": True, "error": None}
        try:
            self.engine.cancel_instruction(instance_id)
        except Exception as ex:
            rec["accepted"] = False
            rec["error"] = type(ex).__name__
        self.requests.append(rec)
        return rec

    def force(self, instance_id: str) -> dict:
        rec = {"tick": self.tickno, "kind": "force", "id": instance_id, "accepted": True, "error": None}
        try:
            self.engine.force_instruction(instance_id)
        except Exception as ex:
            rec["accepted"] = False
            rec["error"] = type(ex).__name__
        self.requests.append(rec)
        return rec

    def set_input(self, name, value):
        self.hw.inputs[name] = value
        if name in ("In1", "X"):            # the condition tag X is fed from the same signal as In1
            self.hw.inputs["In1"] = value
            self.hw.inputs["X"] = value

    # -- observers ------------------------------------------------------------
    def method_state(self) -> dict:
        ms = self.engine.method_manager.get_method_state()
        return {"started": sorted(ms.started_line_ids), "executed": sorted(ms.executed_line_ids),
                "failed": sorted(ms.failed_line_ids), "injected": sorted(ms.injected_line_ids)}

    def runlog_items(self) -> list[dict]:
        rl = self.engine.tracking.get_runlog()
        out = []
        for it in rl.items:
            out.append({"id": it.id, "name": it.name, "state": str(it.state), "start": it.start, "end": it.end,
                        "cancellable": it.cancellable, "forcible": it.forcible, "cancelled": it.cancelled,
                        "forced": it.forced})
        return out

    def diagnose_runlog_failure(self) -> str:
        """Which record breaks get_runlog(): '<instruction>:<states from the first concluding one on>'."""
        rt = self.engine.tracking.runtimeinfo
        self.last_runlog_failure_node = None
        for r in rt.records_filtered:
            try:
                rt._get_record_runlog_items(r)
            except BaseException:
                self.last_runlog_failure_node = r.node_id
                for states in rt._split_states_by_instance_id(r):
                    names = [str(st.state_name).split(".")[-1].lower() for st in states]
                    for i, n in enumerate(names):
                        if n in ("completed", "failed", "cancelled") and i + 1 < len(names):
                            return f"{(r.name or '?').split(':')[0]}:{'>'.join(names[i:])}"
                return f"{(r.name or '?').split(':')[0]}:?"
        return "?"

    def node_flags(self) -> dict:
        """Flags of every node of the current program (by line id)."""
        out = {}
        prog = self.engine.method_manager.program
        for n in prog.get_all_nodes():
            d = {"cls": type(n).__name__, "started": n.started, "completed": n.completed, "failed": n.failed}
            if hasattr(n, "child_index"):
                d["child_index"] = n.child_index
                d["children_complete"] = n.children_complete
            if hasattr(n, "lock_acquired"):
                d["lock"] = n.lock_acquired
                d["ended"] = n.block_ended
            out[n.id] = d
        return out

    def tick(self, increment: float | None = None) -> dict:
        self.tickno += 1
        self.now = T0 + self.tickno * DT
        _Det.now = self.now
        inc = self.increment if increment is None else increment
        ob: dict[str, Any] = {"n": self.tickno, "t": self.now, "pre_state": self.state(), "pre_flags": self.flags()}
        if "tags" in self.observe:
            ob["pre_clocks"] = {k: self.tag(k) for k in ("Process Time", "Run Time", "Block Time", "Scope Time", "Block", "Base")}
            for k in ("Accumulated Volume", "Block Volume"):
                if self.engine.tags.has(k):
                    ob["pre_clocks"][k] = self.tag(k)
        try:
            self.engine.tick(self.now, inc)
        except BaseException as ex:  # C13 monitor
            ob["tick_exception"] = f"{type(ex).__name__}: {str(ex)[:120]}"
            self.tick_exceptions.append((self.tickno, ob["tick_exception"]))
            if isinstance(ex, (KeyboardInterrupt, SystemExit)):
                raise
        ob["state"] = self.state()
        ob["flags"] = self.flags()
        ob["err"] = (self.engine.has_error_state(), str(self.tag("Method Status")))
        ob["inc"] = inc
        if "tags" in self.observe:
            ob["tags"] = {k: self.tag(k) for k in SYS_TAGS}
            ob["out"] = {k: self.tag(k) for k in ("Out1", "Out2", "Free", "Out3", "Out4")}
        ob["nmarks"] = len(self.marks())
        ob["ncmd"] = len(self.cmd_events)
        ob["cmd"] = self.cmd_events[self._ev0:]
        self._ev0 = len(self.cmd_events)
        ob["hw"] = [(r, v) for (_, r, v, _) in self.hw.wlog[self._wl0:]]
        self._wl0 = len(self.hw.wlog)
        ob["mem"] = dict(self.hw.mem)
        if "updates" in self.observe:
            ups = []
            q = self.engine.tag_updates
            while not q.empty():
                t = q.get_nowait()
                ro = t.as_readonly()
                ups.append((t.name, ro.value, t.tick_time))
            ob["updates"] = ups
        if "mstate" in self.observe:
            ob["mstate"] = self.method_state()
        if "runlog" in self.observe:
            try:
                ob["runlog"] = self.runlog_items()
            except BaseException as ex:  # C15 monitor
                ob["runlog"] = f"ERR:{type(ex).__name__}:{self.diagnose_runlog_failure()}"
                self.runlog_errors.append((self.tickno, type(ex).__name__))
        ob["instances"] = sorted(self.uod.command_instances.keys())
        ob["registry"] = sorted(self.engine.registry._command_instances.keys())
        self.obs.append(ob)
        return ob

    def ticks(self, n: int):
        for _ in range(n):
            self.tick()

    # -- convenience projections ---------------------------------------------
    def marks(self) -> list[str]:
        v = self.tag("Mark")
        return [m for m in str(v or "").split("; ") if m]

    def cmd_lifecycles(self) -> dict:
        """instance id -> list of phases in order"""
        d: dict[str, list] = {}
        for (_, name, phase, iid, _) in self.cmd_events:
            d.setdefault(iid, [name]).append(phase)
        return d


# ---------------------------------------------------------------------------
# generic driver: a schedule is a list of (tick, request); requests are JSON-able tuples applied *before* that tick

def apply_request(run: Run, req) -> dict:
    kind = req[0]
    if kind == "user":
        return run.user(req[1])
    if kind == "inject":
        return run.inject(req[1])
    if kind == "edit":
        return run.set_method([tuple(x) for x in req[1]])
    if kind in ("cancel", "force"):
        # req[1] = index into the run log as it is at that moment, or a literal id string
        iid = req[1]
        item = None
        if isinstance(iid, int):
            try:
                items = run.runlog_items()
            except Exception:
                items = []
            if iid >= len(items):
                rec = {"tick": run.tickno, "kind": kind, "id": None, "accepted": False, "error": "no-such-item", "skipped": True}
                run.requests.append(rec)
                return rec
            item = items[iid]
            iid = item["id"]
        rec = run.cancel(iid) if kind == "cancel" else run.force(iid)
        rec["item"] = item
        return rec
    if kind == "input":
        run.set_input(req[1], req[2])
        return {"kind": "input"}
    if kind == "inc":
        run.increment = req[1]
        return {"kind": "inc"}
    raise ValueError(req)


def execute(program, schedule=(), horizon=30, inputs=None, observe=("tags", "mstate", "runlog", "updates"),
            totalizer=True, start=True, wall_offset=0.037, stop_when=None) -> Run:
    """Run `program` for `horizon` ticks, applying schedule requests before their tick.
    inputs: {tick: {register: value}}."""
    run = Run(program, totalizer=totalizer, start=start, observe=observe, wall_offset=wall_offset)
    by_tick: dict[int, list] = {}
    for t, req in schedule:
        by_tick.setdefault(t, []).append(req)
    run.request_records = []
    for t in range(horizon):
        if inputs and t in inputs:
            for k, v in inputs[t].items():
                run.set_input(k, v)
        for req in by_tick.get(t, ()):
            run.request_records.append(apply_request(run, req))
        run.tick()
        if stop_when is not None and stop_when(run):
            break
    return run
